#!/usr/bin/env python3
"""Generates /verif/MANIFEST.json from the table below (single source of truth for the manifest)."""
import json
import pathlib

ROOT = pathlib.Path(__file__).resolve().parent.parent

NOTE = ("Trusted base: CPython's ast / re._parser modules; the analyser's model of the Python subset the repository uses "
        "(bibcheck/absint.py, model.py); re match offsets, list.sort stability, dict insertion order and copy.deepcopy "
        "semantics. The verdict is sound for the named structural clauses only (see DESIGN.md section 5); it is not a "
        "behavioural proof of the whole property.")

CLAIMS = {
    "C01": ("call-graph acyclicity; abstract interpretation of Splitter.split in product with a reference transducer "
            "(finite bisimulation over mark classes); regex syntax-tree facts; exception-class copy-safety rule; "
            "abstract run of write_string over all block classes",
            "Decides: no recursion reachable from the entry points; no exception escapes split() on any mark sequence and "
            "every loop iteration consumes a mark; _next_mark's EOF protocol; the regex guarantee behind the internal-error "
            "raises; writer dispatch exhaustive; stored exceptions survive deepcopy; write_string has no raising path on "
            "parsed libraries. Holds for inputs of every size because the rules quantify over code paths, not inputs.",
            "5 C01"),
    "C02": ("regex syntax-tree / scanner literal agreement; abstract-interpretation bisimulation of the splitter with the "
            "reference transducer of grammar G",
            "Decides that the recogniser the code implements is the reference transducer of the dialect grammar on every "
            "mark sequence without failed blocks: block kinds, keys, field keys and values are the source slices between the "
            "right delimiters, in order.",
            "5 C02"),
    "C03": ("symbolic-offset bisimulation (raw spans, free-text spans, line values) + regex newline rule + line-counter "
            "ownership + bounded class-string evaluation of the free-text extractor",
            "Decides the tiling equations and line reads on every mark sequence (symbolic offsets relative to marks), that "
            "every newline is counted exactly once, and the free-text extraction for class strings up to length 5.",
            "5 C03"),
    "C04": ("abstract-interpretation bisimulation after failures (abort on block start in every scanner state, hand-back, "
            "restart) + put-back typestate of _next_mark + who-may-call rules",
            "Decides that after any failed block the code is again bisimilar to the reference from its initial state with "
            "the aborting mark pending, i.e. later blocks are parsed as on their own; earlier blocks are never touched.",
            "5 C04"),
    "C05": ("abstract interpretation of write_string (default stack) over symbolic content, tokenisation of the written "
            "template by the splitter's own mark regex and run through the reference transducer of grammar G; stack pairing; "
            "writer purity rule",
            "Narrow claim: decides that every block the writer emits (for whitespace formats) is derivable in the reader's "
            "grammar with the same hole roles - same block kinds in order, no failed block, each key / field / value / comment "
            "slice containing exactly its content, values as one brace-enclosed field - that the default stacks pair up and "
            "that the writer is deterministic. Does not decide value equality or the byte-for-byte fixpoint.",
            "5 C05"),
    "C06": ("abstract interpretation of writer.write over symbolic strings and linear integer forms (template extraction) "
            "compared with the reference template of the BibtexFormat contract; option-liveness and index-predicate rules",
            "Decides, for every library shape up to 5 blocks / 3 fields and every option setting (symbolic indent, separator, "
            "comment, value_column symbolic / 'auto' / 0, trailing comma on/off), that the written text equals the contract "
            "template piece by piece, padding as a linear form, 'auto' as a maximum over all keys, and that the format object "
            "is left unchanged; uniformity of the index predicates extends the sizes.",
            "5 C06"),
    "C07": ("abstract interpretation of every shipped middleware's transform() in copy mode over a library holding every "
            "block class: object-graph snapshot (mutation) and reachable-identity intersection (aliasing); flag forwarding; "
            "exception copy-safety rule",
            "Decides that no path of any shipped middleware in copy mode (and of write_string) stores into an object reachable "
            "from its input or returns an object graph sharing a mutable object with it.",
            "5 C07"),
    "C20": ("abstract interpretation of the four entry points and BlockMiddleware.transform with probe middlewares, token "
            "libraries, one-shot iterables and a modelled open(): data-flow / call-order comparison with the documented "
            "composition",
            "Decides stack composition and order, threading of the library, argument forwarding of the file wrappers "
            "(encoding, stack, addition, format, path vs file object), single consumption of iterables, and the per-block "
            "result protocol table, for all argument combinations.",
            "5 C20"),
    "C08": ("bounded-history abstract exploration of Library (every distinct abstract state expanded once with every operation) "
            "against a reference model, with a key-discipline rule justifying the two-key abstraction; ownership rule",
            "Decides, for every operation (add single/list with and without fail flag, remove single/list incl. absent, replace in "
            "both modes incl. absent) from every abstract library state reachable within the bound, that all eight public "
            "views equal the reference model, the invariants hold, and raising calls leave the state unchanged (two known "
            "findings recorded).",
            "5 C08"),
    "C09": ("library exploration against the reference model (first wins, wrappers complete) + splitter bisimulation for "
            "repeated field keys + class-hierarchy rule",
            "Decides that adding never drops or merges, that duplicate wrappers expose key / first block / complete duplicate / "
            "line / raw, that every field occurrence is kept and duplicate-field entries are flagged exactly when a key repeats.",
            "5 C09"),
    "C10": ("finite decision tables extracted by abstract evaluation of _strip_enclosing / _enclose / the two middlewares over "
            "class strings and option combinations, with an observer-discipline rule",
            "Decides the strip table over all class strings up to length 4 (5 thorough), the enclose table over all option / "
            "metadata / value-kind combinations incl. Python ints, the remove->add(reuse) round trip and the numeric-field "
            "call sites. Not decided: the matching-pair clause.",
            "5 C10"),
    "C11": ("decision table by abstract evaluation of ResolveStringReferences.transform over value kinds x definition layouts; "
            "default stack order",
            "Decides which value kinds are substituted (exact, case-sensitive, bare only, first definition wins), the "
            "bookkeeping of resolved keys and that @string blocks stay unchanged.",
            "5 C11"),
    "C15": ("constant folding of the month tables + finite-domain evaluation of the three resolvers over all month spellings "
            "and non-month kinds + composition table",
            "Decides the value table for ints / digit strings -1..14, all case variants of abbreviations, case variants of "
            "full names, enclosed and other text, None and non-ASCII digits, for each middleware and each ordered pair.",
            "5 C15"),
    "C16": ("abstract evaluation of SortBlocksByTypeAndKey.transform over block sequences x type orders x comment modes "
            "against a reference stable sort; aliasing check",
            "Decides permutation, order, stability, comment attachment, equality of the copies and non-aliasing for the "
            "explored sequences (comment runs, equal keys across types, failed/duplicate blocks, trailing comments).",
            "5 C16"),
    "C17": ("abstract evaluation of the two field sorters and NormalizeFieldKeys over all key lists from a 5-key pool with "
            "case collisions against reference functions; idempotence; frame",
            "Decides order, conservation of key/value pairs, last-wins merging, idempotence and that nothing else changes.",
            "5 C17"),
    "C18": ("abstract interpretation of the two LaTeX middlewares with the third-party converter modelled as an opaque "
            "function that returns a string or raises; option data-flow",
            "Decides frame (only string-typed values, name-part lists, @string values change and stay strings), error "
            "containment and option handling. Not decided: the round trip (pylatexenc).",
            "5 C18"),
    "C12": ("abstract interpretation of split_multiple_persons_names over a lazy stream of character classes in product with the "
            "reference separator automaton R-AND (finite bisimulation, relational position abstraction)",
            "Decides the separator rule and the span bookkeeping (hence conservation of characters) for every brace-balanced "
            "input over the character classes; the merge literal; the name-field scope of the middlewares.",
            "5 C12"),
    "C13": ("abstract interpretation of the name tokeniser in product with a reference tokeniser (every character once, "
            "InvalidNameError exactly for the four error kinds) + partition decision table over word case classes + "
            "middleware containment",
            "Decides conservation of characters / words per comma section, the error kinds, containment into a "
            "middleware-error block, and the First/von/Last/Jr partition for all case-class patterns up to 5 (6) words.",
            "5 C13"),
    "C14": ("bounded decision table: abstract evaluation of parse / merge_last_name_first / parse over word-class patterns and of "
            "the Separate/Split/Merge middleware chain (with the enclosing middlewares in between) over author lists from a pool",
            "Bounded claim: decides the inverse law for every word-class pattern up to 4 (5) plain words per name in all three "
            "comma forms, for braced / escaped word kinds in short names, and for author lists of 1..3 persons from a pool "
            "that includes merged forms starting with an escape or a brace. The whole-stack route is reduced to the "
            "middleware chain by C05 (value text preserved by writer and splitter) and C20 (stack composition). Not a claim "
            "for arbitrary names.",
            "5 C14"),
    "C19": ("bounded-history abstract exploration of Entry's mapping API against an insertion-ordered dict model; "
            "single-attribute perturbation table for structural equality",
            "Decides results and field order for every operation from every mapping state within the bound, agreement of "
            "fields / fields_dict / items(), reserved names, and structural equality incl. copies.",
            "5 C19"),
}

NOT_APPLICABLE = {}
PENDING = "static check not built yet in this revision of /verif (see DESIGN.md section 5 for the planned rules)"


def main():
    props = [json.loads(l)["id"] for l in (ROOT / "properties.jsonl").read_text().splitlines() if l.strip()]
    checks = []
    for pid in props:
        if pid not in CLAIMS:
            continue
        tech, text, ref = CLAIMS[pid]
        checks.append({
            "property_id": pid,
            "quick_cmd": f"./check {pid} --tier quick",
            "thorough_cmd": f"./check {pid} --tier thorough",
            "evidence_file": f"/verif/evidence/{pid}.json",
            "replay_cmd_template": f"./check {pid} --replay {{path}}",
            "engine": "bibcheck",
            "level_claimed": {"category": "other",
                              "text": "Static analysis (no execution of repository code): " + text,
                              "design_ref": f"DESIGN.md section {ref}"},
            "level_note": NOTE,
            "technique": "static analysis: " + tech,
        })
    na = []
    for pid in props:
        if pid in CLAIMS:
            continue
        na.append({"property_id": pid, "reason": NOT_APPLICABLE.get(pid, PENDING)})
    man = {
        "version": 1,
        "setup_cmd": "/venv/bin/python -m compileall -q bibcheck >/dev/null 2>&1; /venv/bin/python -c \"import sys; sys.path.insert(0,'.'); import bibcheck.absint, bibcheck.model\"",
        "hooks": {
            "guard": "BIBTEXPARSER_VERIF",
            "enable": "not needed: the checks read /repo's source text only; no hook or instrumentation was added to the repository",
            "baseline_off_cmd": "cd /repo && /venv/bin/python -m pytest -ra -q -p no:cacheprovider --timeout=900 --continue-on-collection-errors",
            "source_commits": [],
            "add_only": True,
        },
        "engines": [{
            "name": "bibcheck",
            "path": "/verif/bibcheck",
            "serves_properties": sorted(CLAIMS),
            "kind_free_text": "repository-specific static analyser on Python ast: program model + call graph, finite-domain "
                              "abstract interpreter with decision-tape nondeterminism, reference automata, regex syntax-tree facts",
        }],
        "checks": checks,
        "not_applicable": na,
        "notes": "All checks are static (ast / re._parser); /repo is never imported or executed by a check; where a rule evaluates a function or a table of concrete texts, the analyser's own interpreter (bibcheck/absint.py) interprets the source. Exit 0 = all "
                 "obligations discharged, exit 1 + VIOLATION line = a construct breaks a rule, exit 2 + ANALYSIS-ERROR = an "
                 "anchor vanished or the analyser could not follow the code. Genuine defects found while building the checks "
                 "were repaired in /repo as 'fix:' commits and are listed in KNOWN_FINDINGS.txt.",
    }
    (ROOT / "MANIFEST.json").write_text(json.dumps(man, indent=1) + "\n")
    print("MANIFEST.json:", len(checks), "checks,", len(na), "not applicable")


if __name__ == "__main__":
    main()
